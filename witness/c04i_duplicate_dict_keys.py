"""C04 witness: dict-key completions repeat a (name, complete) pair when two inferred dicts share a key.
Run: PYTHONPATH=/repo /venv/bin/python witness/c04i_duplicate_dict_keys.py  (exit 1 = defect present)"""
import sys
import jedi

code = "import random\nif random.random():\n    d = {'a': 1}\nelse:\n    d = {'a': 2, 'b': 3}\nd['"
comps = jedi.Script(code).complete(6, 3)
pairs = [(c.name, c.complete) for c in comps]
print(pairs)
if len(pairs) != len(set(pairs)):
    print('DEFECT: a (name, complete) pair occurs twice')
    sys.exit(1)
