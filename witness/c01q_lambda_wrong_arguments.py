import os, sys, traceback
if os.environ.get('JEDI_ROOT'):
    sys.path.insert(0, os.environ['JEDI_ROOT'])
try:
    import jedi
except ImportError:
    print('cannot import jedi; run with PYTHONPATH=<jedi checkout>')
    sys.exit(2)


def check(func):
    """exit 1 and print the exception when func raises, exit 0 otherwise"""
    try:
        func()
    except Exception:
        traceback.print_exc()
        print('DEFECT PRESENT')
        sys.exit(1)
    print('ok')
    sys.exit(0)


# A lambda that is called with arguments that do not fit its params: the text
# of the issue (too many/few arguments, unexpected keyword, multiple values,
# `*x` of something that is not iterable) is built with `funcdef.name`, a
# property that raises for lambdas.
# AttributeError: lambda is not named.
def run():
    jedi.Script('f = lambda a: a\nx = f()\nx').infer(3, 1)
    jedi.Script('f = lambda a: a\nx = f(1, 2)\nx').infer(3, 1)
    jedi.Script('f = lambda a: a\nx = f(b=2)\nx').infer(3, 1)
    jedi.Script('f = lambda a: a\nx = f(1, a=2)\nx').infer(3, 1)
    jedi.Script('f = lambda *a: a\nx = f(*1)\nx').infer(3, 1)
    jedi.Script('f = lambda **a: a\nx = f(**1)\nx').infer(3, 1)


check(run)
