"""C19 witness: the rule `gen` of a/.gitignore hides ab/gen/ as well (string prefix instead of path components).
Run: PYTHONPATH=/repo /venv/bin/python witness/c19f_gitignore_prefix_sibling.py  (exit 1 = defect present)"""
import sys
import tempfile
from pathlib import Path
import jedi

d = Path(tempfile.mkdtemp())
(d / 'a').mkdir(); (d / 'a' / '.gitignore').write_text('gen\n'); (d / 'a' / 'gen').mkdir(); (d / 'a' / 'gen' / 'x.py').write_text('def hidden_fn(): pass\n')
(d / 'ab').mkdir(); (d / 'ab' / 'gen').mkdir(); (d / 'ab' / 'gen' / 'y.py').write_text('def visible_fn(): pass\n')
proj = jedi.Project(str(d))
found = [n.name for n in proj.search('visible_fn')]
hidden = [n.name for n in proj.search('hidden_fn')]
print(found, hidden)
if 'visible_fn' not in found:
    print('DEFECT: ab/gen/y.py is skipped because of a/.gitignore')
    sys.exit(1)
if hidden:
    print('DEFECT: a/gen is searched although ignored')
    sys.exit(1)
