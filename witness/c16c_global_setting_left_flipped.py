"""Witness for C16.c (PYTHONPATH=/repo /venv/bin/python witness/c16c_global_setting_left_flipped.py).
dynamic_arrays._internal_check_array_additions flips the GLOBAL settings.dynamic_params_for_other_modules to False and
restored it with a plain statement at the end.  A query that is interrupted inside that region (Ctrl-C in a REPL,
a watchdog, any internal error) leaves the setting False for every later Script of the process.  The interrupt is
delivered deterministically here: a trace hook raises KeyboardInterrupt when find_additions() is entered."""
import sys
import jedi
from jedi import settings


def hook(frame, event, arg):
    if event == 'call' and frame.f_code.co_name == 'find_additions':
        raise KeyboardInterrupt('interrupt while collecting list additions')
    return None


before = settings.dynamic_params_for_other_modules
code = "x = []\nx.append(1)\nfor y in x:\n    y"
s = jedi.Script(code)
sys.settrace(hook)
try:
    s.infer(4, 5)
    outcome = 'returned'
except BaseException as e:
    outcome = type(e).__name__
finally:
    sys.settrace(None)
after = settings.dynamic_params_for_other_modules
print('query outcome: %s; settings.dynamic_params_for_other_modules before=%r after=%r' % (outcome, before, after))
sys.exit(0 if before == after else 1)
