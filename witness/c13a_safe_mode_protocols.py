"""Witness for the three C13.a known findings (PYTHONPATH=/repo /venv/bin/python witness/c13a_safe_mode_protocols.py).
With settings.allow_unsafe_interpreter_executions=False jedi still calls user-defined __iter__ / __bool__
of objects whose class has no source (so they stay plain compiled values)."""
import sys
import jedi
from jedi import settings
settings.allow_unsafe_interpreter_executions = False

calls = []
ns = {}
exec('''
class It:
    def __iter__(self):
        calls.append('It.__iter__'); return iter([1])
class B:
    def __bool__(self):
        calls.append('B.__bool__'); return True
class L(list):
    def __iter__(self):
        calls.append('L.__iter__'); return list.__iter__(self)
''', {'calls': calls}, ns)
it, b, l = ns['It'](), ns['B'](), ns['L']([1, 2])
results = {}
for label, code in [('has_iter: for x in it', 'for x in it:\n    x.'),
                    ('has_iter: a, b = it', 'a, c = it\na.'),
                    ('py__bool__: (b or 1).', '(b or 1).'),
                    ('py__getitem__all_values: l[x].', 'l[x].')]:
    del calls[:]
    try:
        jedi.Interpreter(code, [{'it': it, 'b': b, 'l': l}]).complete()
    except Exception as e:
        print(label, 'raised', type(e).__name__, e)
    results[label] = list(calls)
    print('%-40s user code run in safe mode: %s' % (label, calls or 'none'))
sys.exit(1 if any(results.values()) else 0)
