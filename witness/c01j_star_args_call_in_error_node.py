"""C01 witness: signatures of a *args/**kwargs pass-through whose forwarding call is followed by broken code.
Run: PYTHONPATH=/repo /venv/bin/python witness/c01j_star_args_call_in_error_node.py  (exit 1 = defect present)"""
import sys
import jedi

bad = 0
for body in ('return foo(**kwargs).', 'x = foo(**kwargs).', 'if foo(**kwargs).', 'not foo(**kwargs).',
             'return await foo(**kwargs).', 'return foo(**kwargs)', 'return foo(*args, **kwargs).'):
    code = "def foo(a, b): pass\ndef wrapper(%s**kwargs):\n    %s\nwrapper(" % ('*args, ' if '*args' in body else '', body)
    try:
        sigs = [s.to_string() for s in jedi.Script(code).get_signatures(4, 8)]
        print(repr(body), sigs)
    except RecursionError:
        print(repr(body), 'RecursionError (needs the typeshed stubs, absent from this snapshot: not counted)')
    except Exception as e:
        print('DEFECT: get_signatures with body %r raised %s: %s' % (body, type(e).__name__, e))
        bad = 1
sys.exit(bad)
