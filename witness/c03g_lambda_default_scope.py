import os, sys, traceback
if os.environ.get('JEDI_ROOT'):
    sys.path.insert(0, os.environ['JEDI_ROOT'])
try:
    import jedi
except ImportError:
    print('cannot import jedi; run with PYTHONPATH=<jedi checkout>')
    sys.exit(2)


def check(func):
    """exit 1 and print the exception when func raises, exit 0 otherwise"""
    try:
        func()
    except Exception:
        traceback.print_exc()
        print('DEFECT PRESENT')
        sys.exit(1)
    print('ok')
    sys.exit(0)


# A name in the default value of a lambda param that cannot be resolved.  The
# context created for it is the one of the lambda itself (for `def` it is the
# context around the function), while the scopes that are walked up to look
# for isinstance/assert information skip the lambda: the walk never meets the
# node of the context and runs out of the module.
# AttributeError: 'NoneType' object has no attribute 'type'
def run():
    jedi.Script('f = lambda a=zz: a\n').infer(1, 14)
    jedi.Script('p = [lambda i=i: i for i in xx]\n').infer(1, 14)


check(run)
