"""Witness: a namespace object with a custom __dir__ crashes every Interpreter query that
lists its attributes (both values of settings.allow_unsafe_interpreter_executions).

  * __dir__ raises (or returns a list that dir() cannot sort, e.g. ['x', 3]):
    the exception of the user's code comes out of Interpreter.complete().
  * __dir__ returns objects that are not strings, e.g. [1, 2] (dir(obj) works and returns
    [1, 2]): AttributeError: 'int' object has no attribute 'lower' in
    jedi/api/completion.py.
DirectObjectAccess.dir() returns dir(self._obj) unchecked.  (getattr_paths() of the same
class catches everything, "It should not crash".)
No names that dir() lists are missing otherwise (about 130 kinds of objects checked).
exit 1 = defect present.
"""
import sys
import traceback

import jedi


class DirRaises:
    attr = 1

    def __dir__(self):
        raise RuntimeError('no dir for you')


class DirUnsortable:
    attr = 1

    def __dir__(self):
        return ['attr', 3]


class DirNonStr:
    attr = 1

    def __dir__(self):
        return [1, 2]


class DirSomeNonStr:
    attr = 1

    def __dir__(self):
        return [b'bytes_name', 'attr', 'other']


namespace = dict(dir_raises=DirRaises(), dir_unsortable=DirUnsortable(), dir_non_str=DirNonStr(),
                 dir_some_non_str=DirSomeNonStr(), ok=[])
failures = []
old = jedi.settings.allow_unsafe_interpreter_executions
try:
    for unsafe in (True, False):
        jedi.settings.allow_unsafe_interpreter_executions = unsafe
        for name, obj in namespace.items():
            for code in [name + '.', name + '.attr', 'x = %s\nx.' % name]:
                lines = code.split('\n')
                for method in ['complete', 'infer', 'goto', 'help']:
                    try:
                        result = getattr(jedi.Interpreter(code, [namespace]), method)(
                            len(lines), len(lines[-1]))
                    except Exception:
                        failures.append('allow_unsafe=%s: Interpreter(%r).%s() raises %s' % (
                            unsafe, code, method,
                            traceback.format_exc().splitlines()[-1]))
                        continue
                    if method == 'complete' and code.endswith('.'):
                        try:
                            expected = [n for n in dir(obj) if isinstance(n, str)]
                        except Exception:
                            expected = []
                        missing = set(expected) - {c.name for c in result}
                        if missing:
                            failures.append('allow_unsafe=%s: %r misses %r'
                                            % (unsafe, code, sorted(missing)))
finally:
    jedi.settings.allow_unsafe_interpreter_executions = old

if failures:
    print('DEFECT PRESENT')
    for f in failures:
        print(f)
    sys.exit(1)
print('ok')
sys.exit(0)
