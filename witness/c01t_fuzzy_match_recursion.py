"""C01: complete(fuzzy=True) on a very long name raised RecursionError: helpers._fuzzy_match recursed once per character of the typed
name (3000 characters exhaust the interpreter stack that jedi itself raises to 3000 frames).  exit 1 = defect present."""
import sys
import jedi
n = 'a' * 3000
try:
    got = [c.name == n for c in jedi.Script(n + ' = 1\n' + n).complete(fuzzy=True)]
except RecursionError:
    print('DEFECT: RecursionError from complete(fuzzy=True) on a 3000-character name'); sys.exit(1)
print('ok: %d completion(s)' % len(got))
