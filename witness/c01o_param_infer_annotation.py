import os, sys, traceback
if os.environ.get('JEDI_ROOT'):
    sys.path.insert(0, os.environ['JEDI_ROOT'])
try:
    import jedi
except ImportError:
    print('cannot import jedi; run with PYTHONPATH=<jedi checkout>')
    sys.exit(2)


def check(func):
    """exit 1 and print the exception when func raises, exit 0 otherwise"""
    try:
        func()
    except Exception:
        traceback.print_exc()
        print('DEFECT PRESENT')
        sys.exit(1)
    print('ok')
    sys.exit(0)


# ParamName.infer_annotation() (documented, jedi.api.classes.ParamName) calls
# infer_annotation() of the internal param name, which only the param names of
# plain functions have.  Params of a dataclass (DataclassParamName) and of
# compiled functions (SignatureParamName, UnresolvableParamName) do not:
# AttributeError: 'DataclassParamName' object has no attribute 'infer_annotation'
def run():
    source = ('from dataclasses import dataclass\n'
              '@dataclass\n'
              'class A:\n'
              '    a: int\n'
              'A(')
    for signature in jedi.Script(source).get_signatures(5, 2):
        for param in signature.params:
            print(param.to_string(), param.infer_default(), param.infer_annotation())


check(run)
