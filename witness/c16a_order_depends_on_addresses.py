"""Witness for the C16.a known findings (PYTHONPATH=/repo /venv/bin/python witness/c16a_order_depends_on_addresses.py).
The same query on the same text returns its results in a different ORDER (or, for completions, a
different surviving duplicate) depending on object addresses: each probe runs in a fresh process that first
allocates a different amount of padding."""
import subprocess, sys, os, json

PROBES = {
 'get_signatures': ("def f(a): pass\ndef g(b): pass\nclass K:\n    def __init__(self, c): pass\nh = f if r else (g if r else K)\nh(",
                    "[s.to_string() for s in jedi.Script(code).get_signatures()]"),
 'help': ("class A:\n    def foo(self): pass\nclass B:\n    def foo(self): pass\nclass C:\n    def foo(self): pass\nx = A() if a else (B() if b else C())\nx.foo",
          "[(d.line, d.name) for d in jedi.Script(code).help()]"),
 'search': ("class A:\n    def foo(self): pass\nclass B:\n    def foo(self): pass\nclass C:\n    def foo(self): pass\nx = A() if a else (B() if b else C())\n",
            "[(d.line, d.name) for d in jedi.Script(code).search('x.foo')]"),
 'complete(dedup)': ("class A:\n    def foo(self): pass\nclass B:\n    foo = 1\nx = A() if a else B()\nx.fo",
                     "[(c.name, c.type, c.line) for c in jedi.Script(code).complete()]"),
}
CHILD = r'''
import sys, json
pad = [object() for _ in range(int(sys.argv[1]))]
keep = [[i] for i in range(int(sys.argv[1]) % 7)]
import jedi
code = sys.argv[2]
print(json.dumps(eval(sys.argv[3])))
'''
bad = 0
for name, (code, expr) in PROBES.items():
    seen = {}
    for pad in (0, 1, 3, 10, 33, 100, 257, 1000, 1999, 4096, 9973, 20011):
        out = subprocess.run([sys.executable, '-c', CHILD, str(pad), code, expr], capture_output=True, text=True,
                             env=dict(os.environ, PYTHONHASHSEED='0'))
        if out.returncode:
            print(name, 'child failed', out.stderr[-300:]); continue
        seen.setdefault(out.stdout.strip(), []).append(pad)
    print('%-16s %d distinct answers over 12 runs' % (name, len(seen)))
    for k, v in seen.items():
        print('      pads %s -> %s' % (v, k[:150]))
    if len(seen) > 1:
        bad += 1
sys.exit(1 if bad else 0)
