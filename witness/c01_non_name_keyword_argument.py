import os, sys, traceback
if os.environ.get('JEDI_ROOT'):
    sys.path.insert(0, os.environ['JEDI_ROOT'])
try:
    import jedi
except ImportError:
    print('cannot import jedi; run with PYTHONPATH=<jedi checkout>')
    sys.exit(2)


def check(func):
    """exit 1 and print the exception when func raises, exit 0 otherwise"""
    try:
        func()
    except Exception:
        traceback.print_exc()
        print('DEFECT PRESENT')
        sys.exit(1)
    print('ok')
    sys.exit(0)


# parso's grammar accepts any expression in front of the `=` of a keyword
# argument (`test '=' test`, the check is left to the error finder), jedi takes
# the `.value` of it as if it always were a name.
# AttributeError: 'PythonNode' object has no attribute 'value'
def run():
    jedi.Script('def f(x): return x\ny = f(a.b=3)\ny').infer(3, 1)
    jedi.Script('def f(x): return x\ny = f(a.b=3)\ny').infer(1, 6)   # the param x
    jedi.Script('def f(**x): return x\ny = f(a+b=3)\ny').infer(3, 1)


check(run)
