"""Witness: Interpreter safe mode (settings.allow_unsafe_interpreter_executions = False)
executes a property getter / a user-defined descriptor's __get__ that is wrapped in a
classmethod ("class property": @classmethod @property), Python 3.9 - 3.12.

Until Python 3.13 classmethod.__get__(None, C) calls the __get__ of the wrapped object.
DirectObjectAccess.is_allowed_getattr() sees type(attr) is classmethod, which is in
ALLOWED_DESCRIPTOR_ACCESS, declares the access safe and getattr_paths() then does the real
getattr(C, name).
(On Python >= 3.13 classmethod does not chain anymore; the witness exits 0 there.)
exit 1 = defect present.
"""
import sys

import jedi

calls = []


class Desc:
    def __get__(self, inst, owner=None):
        calls.append('Desc.__get__')
        return ''


class C:
    @classmethod
    @property
    def class_property(cls):
        calls.append('class_property fget')
        return ''

    class_desc = classmethod(Desc())

    @classmethod
    def normal(cls):
        return ''


failures = []
old = jedi.settings.allow_unsafe_interpreter_executions
jedi.settings.allow_unsafe_interpreter_executions = False
try:
    namespace = {'C': C, 'c': C()}
    for code in ['C.class_property', 'c.class_property', 'C.class_desc', 'c.class_desc',
                 'C.class_property.', 'x = C.class_desc\nx.']:
        lines = code.split('\n')
        pos = len(lines), len(lines[-1])
        for method in ['infer', 'goto', 'help', 'complete']:
            del calls[:]
            result = getattr(jedi.Interpreter(code, [namespace]), method)(*pos)
            for r in result[:3]:
                r.docstring(), r.type, r.full_name, r.description, r.get_type_hint()
            if calls:
                failures.append('safe mode: Interpreter(%r).%s%r executed %s'
                                % (code, method, pos, sorted(set(calls))))
    # The names are still offered, normal classmethods are still inferred.
    names = [c.name for c in jedi.Interpreter('C.', [namespace]).complete(1, 2)]
    for n in ['class_property', 'class_desc', 'normal']:
        if n not in names:
            failures.append('REGRESSION: C. does not offer %r' % n)
    for code in ['C.normal', 'c.normal']:
        result = jedi.Interpreter(code, [namespace]).infer(1, len(code))
        if [r.type for r in result] != ['function']:
            failures.append('REGRESSION: %s -> %r' % (code, result))
finally:
    jedi.settings.allow_unsafe_interpreter_executions = old

if failures:
    print('DEFECT PRESENT')
    for f in failures:
        print(f)
    sys.exit(1)
print('ok')
sys.exit(0)
