"""Witness for C20.b (PYTHONPATH=/repo /venv/bin/python witness/c20b_project_roundtrip.py).
Project settings given as pathlib.Path must round-trip through save()/load() like str ones."""
import os, shutil, sys, tempfile
from pathlib import Path
import jedi
bad = []
d = tempfile.mkdtemp(prefix='jedi-proj-')
old = os.getcwd()
try:
    # 1. environment_path as Path
    try:
        p = jedi.Project(d, environment_path=Path(sys.prefix))
        p.save()
        q = jedi.Project.load(d)
        if str(q._environment_path) != str(Path(sys.prefix)):
            bad.append('environment_path changed: %r' % (q._environment_path,))
    except Exception as e:
        bad.append('save() with environment_path=Path(...) raised %s: %s' % (type(e).__name__, e))
    # 2. relative Path as project path
    os.chdir(d)
    os.mkdir('sub')
    p = jedi.Project(Path('sub'))
    p.save()
    os.chdir(old)
    q = jedi.Project.load(os.path.join(d, 'sub'))
    if Path(q.path) != Path(d, 'sub').resolve() and Path(q.path) != Path(d, 'sub'):
        bad.append('Project(Path("sub")) saved path %r, which loads as %r (not the project directory)' % (str(p.path), str(q.path)))
finally:
    os.chdir(old)
    shutil.rmtree(d)
for b in bad:
    print('BAD:', b)
print('ok' if not bad else '%d problem(s)' % len(bad))
sys.exit(1 if bad else 0)
