"""Witness: Project.search()/complete_search()/Script.get_references() raise
TypeError: 'NoneType' object is not subscriptable
in jedi/inference/imports.load_module_from_path when the scanned directory contains a
.pyi file that cannot be mapped to a dotted name (project with smart_sys_path=False, so
the project directory is not on the sys path).  For .py files the same situation
(import_names is None) is handled.
exit 1 = defect present.
"""
import os
import sys
import tempfile
import traceback

import jedi

d = tempfile.mkdtemp(prefix='jedi-w2b-')
with open(os.path.join(d, 's.pyi'), 'w') as f:
    f.write('def bar() -> int: ...\n')
with open(os.path.join(d, 's.py'), 'w') as f:
    f.write('def bar():\n    return 1\n')

failures = []
project = jedi.Project(d, smart_sys_path=False)
script = jedi.Script('def bar(): pass\nbar', path=os.path.join(d, 'x.py'), project=project)
for label, func in [
    ("Project.search('bar')", lambda: list(project.search('bar'))),
    ("Project.complete_search('ba')", lambda: list(project.complete_search('ba'))),
    ('Script.get_references(1, 5)', lambda: script.get_references(1, 5)),
]:
    try:
        result = func()
    except Exception:
        failures.append('%s raises\n%s' % (
            label, ''.join(traceback.format_exc().splitlines(True)[-4:])))
    else:
        paths = {n.module_path and os.path.basename(str(n.module_path)) for n in result
                 if n.name == 'bar'}
        if label.startswith('Project.search') and not {'s.py', 's.pyi'} <= paths:
            failures.append('%s: bar of s.py and s.pyi expected, got %r' % (label, result))

if failures:
    print('DEFECT PRESENT')
    for f in failures:
        print(f)
    sys.exit(1)
print('ok')
sys.exit(0)
