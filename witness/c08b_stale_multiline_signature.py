"""Witness for C08.b (PYTHONPATH=/repo /venv/bin/python witness/c08b_stale_multiline_signature.py).
The call-signature time cache (settings.call_signatures_validity, 3 s) is keyed on (path, re.Match | None, bracket
position).  With the cursor on a later line than the opening bracket the match is None, the key compares equal
between Scripts, and a second Script for the edited buffer gets the OLD Script's signature values."""
import sys
import jedi
from jedi import settings
settings.call_signatures_validity = 60.0   # make the window independent of machine load
v1 = "def target(a, b):\n    pass\n\ntarget(\n    1,\n    "
v2 = "def target(a, b, ccc, ddd):\n    pass\n\ntarget(\n    1,\n    "
p = '/tmp/zz_jedi_c08b_buffer.py'
s1 = [s.to_string() for s in jedi.Script(v1, path=p).get_signatures(6, 4)]
s2 = [s.to_string() for s in jedi.Script(v2, path=p).get_signatures(6, 4)]
print('first buffer :', s1)
print('edited buffer:', s2)
stale = s2 == s1
print('stale signature served from the time cache:', stale)
sys.exit(1 if stale else 0)
