import os, sys, traceback
if os.environ.get('JEDI_ROOT'):
    sys.path.insert(0, os.environ['JEDI_ROOT'])
try:
    import jedi
except ImportError:
    print('cannot import jedi; run with PYTHONPATH=<jedi checkout>')
    sys.exit(2)


def check(func):
    """exit 1 and print the exception when func raises, exit 0 otherwise"""
    try:
        func()
    except Exception:
        traceback.print_exc()
        print('DEFECT PRESENT')
        sys.exit(1)
    print('ok')
    sys.exit(0)


# Every import looks for sys.path modifications of the module.  The argument
# of `sys.path.append(...)` / `sys.path.insert(0, ...)` is inferred even if it
# is an `argument` node (`*a`, `**k`, a generator) or a whole arglist.
def run():
    # AssertionError: unhandled operator '*' in PythonNode(argument, ...)
    jedi.Script('import sys\nsys.path.append(*a)\nimport os\nos').infer(4, 2)
    jedi.Script('import sys\nsys.path.insert(0, *a)\nimport os\nos').infer(4, 2)
    jedi.Script('import sys\nsys.path.append("x", *a)\nimport os\nos').infer(4, 2)
    # RuntimeError: generator raised StopIteration (valid Python, trailing comma)
    jedi.Script('import sys\nsys.path.append("x",)\nimport os\nos').infer(4, 2)
    # RuntimeError: generator raised StopIteration
    jedi.Script('import sys\nsys.path.append(x for x in y)\nimport os\nos').infer(4, 2)


check(run)
