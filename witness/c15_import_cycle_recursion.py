"""Witness for C15 (PYTHONPATH=/repo /venv/bin/python witness/c15_import_cycle_recursion.py).
Two modules that import the same name from each other (a plain import cycle): goto(follow_imports=True), help and
get_references recurse without bound (RecursionError) — helpers.filter_follow_imports and references._resolve_names
follow name.goto() round the cycle without a seen-set."""
import os, shutil, sys, tempfile
import jedi
d = tempfile.mkdtemp(prefix='jedi-cycle-')
bad = []
try:
    open(os.path.join(d, 'aa.py'), 'w').write('from bb import thing\nthing\n')
    open(os.path.join(d, 'bb.py'), 'w').write('from aa import thing\n')
    p = os.path.join(d, 'aa.py')
    proj = jedi.Project(d)
    for label, q in [('goto(follow_imports=True)', lambda s: s.goto(2, 2, follow_imports=True)),
                     ('help', lambda s: s.help(2, 2)),
                     ('get_references', lambda s: s.get_references(2, 2)),
                     ('infer', lambda s: s.infer(2, 2)),
                     ('goto', lambda s: s.goto(2, 2))]:
        s = jedi.Script(path=p, project=proj)
        try:
            r = q(s)
            print('%-28s returned %d result(s)' % (label, len(r)))
        except RecursionError:
            print('%-28s RecursionError' % label)
            bad.append(label)
finally:
    shutil.rmtree(d)
sys.exit(1 if bad else 0)
