"""Witness for C10.e/C16 (PYTHONPATH=/repo /venv/bin/python witness/c10e_namespace_portion_order.py).
ModuleValue.py__path__ collected the portions of a pkgutil-style namespace package in a set(): when a sub-module
exists in two portions, which file an import resolves to depended on PYTHONHASHSEED (Python uses sys.path order)."""
import os, subprocess, sys, tempfile, shutil, json
d = tempfile.mkdtemp(prefix='jedi-ns-')
try:
    roots = []
    for i in range(4):
        r = os.path.join(d, 'root%d' % i)
        os.makedirs(os.path.join(r, 'nsp'))
        open(os.path.join(r, 'nsp', '__init__.py'), 'w').write("__path__ = __import__('pkgutil').extend_path(__path__, __name__)\n")
        open(os.path.join(r, 'nsp', 'mod.py'), 'w').write('where = %d\n' % i)
        roots.append(r)
    child = ("import jedi, json, sys, os; p = jedi.Project(%r, sys_path=%r, smart_sys_path=False); "
             "s = jedi.Script('import nsp.mod\\nnsp.mod', project=p); "
             "print(json.dumps([os.path.relpath(str(n.module_path), %r) for n in s.infer(2, 7)]))" % (d, roots, d))
    seen = {}
    for seed in range(10):
        out = subprocess.run([sys.executable, '-c', child], capture_output=True, text=True, env=dict(os.environ, PYTHONHASHSEED=str(seed)))
        if out.returncode:
            print('child failed', out.stderr[-500:]); sys.exit(2)
        seen.setdefault(out.stdout.strip(), []).append(seed)
    for k, v in seen.items():
        print('PYTHONHASHSEED %s -> %s' % (v, k))
    sys.exit(1 if len(seen) > 1 else 0)
finally:
    shutil.rmtree(d)
