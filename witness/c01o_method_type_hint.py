import os, sys, traceback
if os.environ.get('JEDI_ROOT'):
    sys.path.insert(0, os.environ['JEDI_ROOT'])
try:
    import jedi
except ImportError:
    print('cannot import jedi; run with PYTHONPATH=<jedi checkout>')
    sys.exit(2)


def check(func):
    """exit 1 and print the exception when func raises, exit 0 otherwise"""
    try:
        func()
    except Exception:
        traceback.print_exc()
        print('DEFECT PRESENT')
        sys.exit(1)
    print('ok')
    sys.exit(0)


# Name.get_type_hint() of a bound method without return annotation executes
# the method anonymously; AnonymousMethodExecutionContext has no
# infer_annotations(), the NotImplementedError of the base class escapes.
def run():
    source = 'class C:\n    def m(self, z):\n        return z\nC().m'
    for name in jedi.Script(source).infer(4, 5):
        print(name.get_type_hint())
    for name in jedi.Script(source).goto(4, 5):
        print(name.get_type_hint())
    for completion in jedi.Script(source).complete(4, 5):
        print(completion.get_type_hint())
    # A method without any parameter (`self` not typed yet), IndexError in
    # AnonymousMethodExecutionContext.get_param_names (behind the first one).
    source = 'class C:\n    def m(): pass\nC().m'
    for name in jedi.Script(source).goto(3, 5):
        print(name.get_type_hint())


check(run)
