"""C07/C05 witness: renaming package `pkg` re-roots a changed file of the sibling package `pkg2` (string prefix instead of path components).
Run: PYTHONPATH=/repo /venv/bin/python witness/c07h_rename_prefix_sibling.py  (exit 1 = defect present)"""
import sys
import tempfile
from pathlib import Path
import jedi

d = Path(tempfile.mkdtemp())
(d / 'pkg').mkdir(); (d / 'pkg' / '__init__.py').write_text('x = 1\n')
(d / 'pkg2').mkdir(); (d / 'pkg2' / '__init__.py').write_text(''); (d / 'pkg2' / 'user.py').write_text('import pkg\nprint(pkg.x)\n')
(d / 'main.py').write_text('import pkg\nprint(pkg.x)\n')
r = jedi.Script(path=str(d / 'main.py'), project=jedi.Project(str(d))).rename(1, 8, new_name='renamed')
bad = 0
for p, cf in r.get_changed_files().items():
    print(p.relative_to(d), '->', cf._to_path.relative_to(d) if cf._to_path else None)
    if p.name == 'user.py' and cf._to_path != p:
        print('DEFECT: a file outside the renamed package is announced (and would be written) under a different path')
        bad = 1
sys.exit(bad)
