"""C18/C10 witness: a module in <dir>/library gets the dotted name `rary.mod` when <dir>/lib is on the search path.
Run: PYTHONPATH=/repo /venv/bin/python witness/c10f_dotted_name_prefix_sibling.py  (exit 1 = defect present)"""
import sys
import tempfile
from pathlib import Path
import jedi
from jedi.inference.sys_path import transform_path_to_dotted

bad = 0
r = transform_path_to_dotted(['/foo'], Path('/foobar/baz.py'))
print(r)
if r[0] is not None:
    print('DEFECT: /foobar/baz.py is named %s relative to /foo' % (r[0],))
    bad = 1
d = Path(tempfile.mkdtemp())
(d / 'lib').mkdir(); (d / 'library').mkdir(); (d / 'library' / 'mod.py').write_text('def f(): pass\n')
s = jedi.Script(path=str(d / 'library' / 'mod.py'), project=jedi.Project(str(d / 'lib'), sys_path=[str(d / 'lib')], smart_sys_path=False))
names = [n.full_name for n in s.get_names()]
print(names)
if any(n and n.startswith('rary') for n in names):
    print('DEFECT: full_name built from a string prefix of the path')
    bad = 1
sys.exit(bad)
