"""Witness for C14.b (run: PYTHONPATH=/repo /venv/bin/python witness/c14b_truncated_reply.py).
A reply cut after >= 1 byte ("half-way through a reply") must surface as InternalError and
mark the helper crashed.  Not part of any check: documents the defect behind the fix commit."""
import io, pickle, sys
from jedi.inference.compiled.subprocess import CompiledSubprocess
from jedi.api.exceptions import InternalError

full = pickle.dumps((False, None, list(range(50))), 4)
bad = []
for k in range(0, len(full)):
    class P:
        stdin = io.BytesIO()
        stdout = io.BytesIO(full[:k])
        stderr = io.BytesIO(b'')
    cs = CompiledSubprocess(sys.executable)
    cs._get_process = lambda P=P: P
    cs._stderr_queue = __import__('queue').Queue()
    try:
        cs._send(None, len, ((),), {})
        bad.append((k, 'no exception'))
    except InternalError:
        if not cs.is_crashed:
            bad.append((k, 'InternalError but not marked crashed'))
    except BaseException as e:
        bad.append((k, '%s: %s; is_crashed=%s' % (type(e).__name__, e, cs.is_crashed)))
print('cut points tried: %d, misbehaving: %d' % (len(full), len(bad)))
for b in bad[:3]:
    print('  cut at byte', *b)
sys.exit(1 if bad else 0)
