"""Witness for C01/C16.c (PYTHONPATH=/repo /venv/bin/python witness/c01_predefine_names_reentrant.py).
Two augmented assignments in one loop that read each other make inference re-enter
context.predefine_names() for the SAME for-statement; the inner exit deleted the entry, the outer exit then
raised KeyError, which escaped from Script.infer()."""
import sys
import jedi
code = "x = 1\nacc = 0\nfor i in [1, 2]:\n    acc += x\n    x += acc\nacc\nx\n"
bad = []
for pos in [(5, 4), (5, 5), (7, 0), (7, 1), (6, 1), (4, 5)]:
    try:
        r = jedi.Script(code).infer(*pos)
        print(pos, 'infer ->', [d.name for d in r])
    except Exception as e:
        print(pos, 'infer raised', type(e).__name__, str(e)[:60])
        bad.append(pos)
sys.exit(1 if bad else 0)
