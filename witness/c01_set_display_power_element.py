import os, sys, traceback
if os.environ.get('JEDI_ROOT'):
    sys.path.insert(0, os.environ['JEDI_ROOT'])
try:
    import jedi
except ImportError:
    print('cannot import jedi; run with PYTHONPATH=<jedi checkout>')
    sys.exit(2)


def check(func):
    """exit 1 and print the exception when func raises, exit 0 otherwise"""
    try:
        func()
    except Exception:
        traceback.print_exc()
        print('DEFECT PRESENT')
        sys.exit(1)
    print('ok')
    sys.exit(0)


# A set literal with one element that is a power expression or a lambda
# ({2 ** 3}, {lambda: 1}) is taken for a dict, because the `**` / `:` of the
# *element* is found where the `**` / `:` of a dictorsetmaker is expected.
# TypeError: cannot unpack non-iterable PythonNode object
def run():
    jedi.Script('x = {2 ** 3}\n').infer(1, 0)
    jedi.Script('for a in {2 ** 3}: a').infer(1, 4)
    jedi.Script('a, b = {2 ** 3}\na').infer(2, 1)


check(run)
