"""Witness: a Script on a .pyi file that is not importable via the project's sys path
(Project(dir, smart_sys_path=False), or a stub that lies outside the project directory)
raises AssertionError in jedi/inference/gradual/conversion.py (_infer_from_stub) for
infer/goto(follow...)/help/get_references/complete.

Script._get_module() cannot compute dotted names for such a file, load_proper_stub_module
returns None and the module becomes a plain ModuleValue whose is_stub() is True (because of
the .pyi suffix, see ModuleValue.is_stub).  conversion._infer_from_stub asserts that every
stub module is a StubModuleValue.
exit 1 = defect present.
"""
import os
import sys
import tempfile
import traceback

import jedi

d = tempfile.mkdtemp(prefix='jedi-w2-')
other = tempfile.mkdtemp(prefix='jedi-w2-other-')
with open(os.path.join(d, 's.pyi'), 'w') as f:
    f.write('def bar() -> int: ...\n')
with open(os.path.join(d, 's.py'), 'w') as f:
    f.write('def bar():\n    return 1\n')
code = 'def bar() -> int: ...\nbar\n'

failures = []
for label, project in [
    ('Project(dir, smart_sys_path=False)', jedi.Project(d, smart_sys_path=False)),
    ('stub outside of the project', jedi.Project(other)),
]:
    script = jedi.Script(code, path=os.path.join(d, 's.pyi'), project=project)
    for method, args in [('infer', (1, 5)), ('help', (1, 5)), ('get_references', (1, 5)),
                         ('complete', (2, 3))]:
        try:
            result = getattr(script, method)(*args)
        except Exception:
            failures.append('%s: Script.%s%r raises\n%s' % (
                label, method, args, ''.join(traceback.format_exc().splitlines(True)[-4:])))
        else:
            if 'bar' not in [n.name for n in result]:
                failures.append('%s: Script.%s%r -> %r' % (label, method, args, result))

if failures:
    print('DEFECT PRESENT')
    for f in failures:
        print(f)
    sys.exit(1)
print('ok')
sys.exit(0)
