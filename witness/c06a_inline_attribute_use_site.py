"""C06 (inline keeps the program equivalent): inlining an ATTRIBUTE whose value is an operator expression into an operand position lost
the parentheses: `self.x = 1 + 2; return self.x * 2` became `return 1 + 2 * 2`.  The name `x` sits in a trailer; when that trailer is the
last of its chain the whole `self.x` is replaced, so the use site is where the chain sits (a `term`), not the trailer.  exit 1 = defect."""
import sys
import jedi
src = "class C:\n    def f(self):\n        self.x = 1 + 2\n        return self.x * 2, -self.x, self.x ** 2, g(self.x), self.x\n"
new = jedi.Script(src).inline(3, 13).get_changed_files()[None].get_new_code()
want = "class C:\n    def f(self):\n        return (1 + 2) * 2, -(1 + 2), (1 + 2) ** 2, g(1 + 2), 1 + 2\n"
if new != want:
    print('DEFECT: %r' % new); sys.exit(1)
print('ok: %r' % new)
