"""extract_variable / extract_function with a selection that ends before it starts
(until_line < line, or until_column < column on the same line) leak
UnboundLocalError / IndexError / AttributeError instead of RefactoringError / ValueError."""
import sys
import jedi

CASES = [
    # code, line, column, until_line, until_column
    ('a = 1\nb = a + 2\n', 2, 5, 1, 0),          # until_line < line
    ('x = foo(1 + 2) + 3\n', 1, 14, 1, 4),       # until_column < column
    ('while not a or b: break\n', 1, 11, 1, 7),
    ('a = 1\n\n\nb = a\n\n', 6, 0, 4, 0),        # from the end of the file backwards
]
bad = []
for code, line, column, until_line, until_column in CASES:
    for fn in ('extract_variable', 'extract_function'):
        try:
            getattr(jedi.Script(code), fn)(
                line, column, until_line=until_line, until_column=until_column, new_name='nn'
            ).get_diff()
        except (jedi.RefactoringError, ValueError):
            pass
        except Exception as e:
            bad.append('%s %r %s..%s: %s: %s' % (
                fn, code, (line, column), (until_line, until_column), type(e).__name__, e))
if bad:
    print('DEFECT: a reversed selection leaks a non-RefactoringError:')
    print('\n'.join('  ' + b for b in bad))
    sys.exit(1)
print('ok')
