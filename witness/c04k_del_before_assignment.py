"""C04 (complete): an attribute that is deleted in a method that comes EARLIER in the source than the assignment was never offered:
filter_names registered the (name, complete) key of the `del self.x` name in its seen-set before it dropped that name, so the later
`self.x = 1` name counted as a duplicate.  exit 1 = defect present."""
import sys
import jedi
src = "class A:\n    def clear(self):\n        del self.xval\n    def __init__(self):\n        self.xval = 1\na = A()\na.xv"
got = [c.name for c in jedi.Script(src).complete()]
twin = "class A:\n    def __init__(self):\n        self.xval = 1\n    def clear(self):\n        del self.xval\na = A()\na.xv"
got2 = [c.name for c in jedi.Script(twin).complete()]
if got != ['xval'] or got2 != ['xval']:
    print('DEFECT: completions %r (del first) vs %r (assignment first)' % (got, got2)); sys.exit(1)
print('ok: xval is offered in both orders')
