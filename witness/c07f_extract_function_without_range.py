import os, sys, traceback
if os.environ.get('JEDI_ROOT'):
    sys.path.insert(0, os.environ['JEDI_ROOT'])
try:
    import jedi
except ImportError:
    print('cannot import jedi; run with PYTHONPATH=<jedi checkout>')
    sys.exit(2)


def check(func):
    """exit 1 and print the exception when func raises, exit 0 otherwise"""
    try:
        func()
    except Exception:
        traceback.print_exc()
        print('DEFECT PRESENT')
        sys.exit(1)
    print('ok')
    sys.exit(0)

from jedi.api.exceptions import RefactoringError


def refactor(source, method, line, column, until_line=None, until_column=None):
    """RefactoringError (and ValueError) are the documented ways to say no."""
    try:
        r = getattr(jedi.Script(source), method)(
            line, column, new_name='nn', until_line=until_line, until_column=until_column)
        r.get_diff()
        return r.get_changed_files()[None].get_new_code()
    except (RefactoringError, ValueError) as e:
        return e


# extract_function with only a cursor (no until_line/until_column) on something
# that is not an expression: TypeError: 'NoneType' object is not subscriptable
def run():
    print(refactor('x = 1 + 2\n', 'extract_function', 1, 0))   # on the defined name x
    print(refactor('x = 1 + 2\n', 'extract_function', 1, 2))   # on the `=`
    print(refactor('def f():\n    return 1\n', 'extract_function', 1, 0))   # on `def`
    print(refactor('', 'extract_function', 1, 0))


check(run)
