"""Witness for C06.a (PYTHONPATH=/repo /venv/bin/python witness/c06a_inline_parentheses.py).
inline() must parenthesise the inlined right-hand side wherever the use site binds tighter than the expression.
Each case: (program, position of the variable to inline); the inlined program must compile and, when run,
print the same as the original."""
import io, sys, contextlib
import jedi

CASES = {
 'ternary operand':      ("a, c = 1, 0\nx = 1 if a else 2\ny = x if c else 3\nprint(y)\n", (2, 0)),
 'star expression':      ("a = []\nx = a or [2]\ny = [*x]\nprint(y)\n", (2, 0)),
 'comprehension iterable': ("a, b, c = [1], [2], 0\nx = a if c else b\ny = [i for i in x]\nprint(y)\n", (2, 0)),
 'comprehension condition': ("a, c = 0, 1\nx = a if c else 5\ny = [i for i in [1, 2] if x]\nprint(y)\n", (2, 0)),
 'dict unpacking':       ("a = {}\nx = a or {1: 2}\ny = {**x}\nprint(y)\n", (2, 0)),
 'lambda body':          ("x = lambda: 1\ny = x if 0 else 2\nprint(y)\n", (1, 0)),
 'binary operand (control)': ("a = 2\nx = a + 1\ny = x * 3\nprint(y)\n", (2, 0)),
}


def run(code):
    out = io.StringIO()
    with contextlib.redirect_stdout(out):
        exec(compile(code, '<case>', 'exec'), {})
    return out.getvalue()


bad = []
for label, (code, pos) in CASES.items():
    new = jedi.Script(code).inline(*pos).get_changed_files()[None].get_new_code()
    try:
        same = run(new) == run(code)
        verdict = 'ok' if same else 'DIFFERENT BEHAVIOUR'
    except SyntaxError as e:
        same, verdict = False, 'DOES NOT COMPILE (%s)' % e.msg
    line = [l for l in new.splitlines() if l.startswith('y =')][0]
    print('%-26s %-40s %s' % (label, line, verdict))
    if not same:
        bad.append(label)
sys.exit(1 if bad else 0)
