"""Witness for C13.d (PYTHONPATH=/repo /venv/bin/python witness/c13d_metaclass_property.py).
getattr_static's metaclass branch answered is_get_descriptor=False unconditionally, so a property defined on the
METACLASS was fetched for real (its getter ran) with settings.allow_unsafe_interpreter_executions=False."""
import sys
import jedi
from jedi import settings
settings.allow_unsafe_interpreter_executions = False
calls = []
ns = {}
exec('''
class Meta(type):
    @property
    def mprop(cls):
        calls.append('Meta.mprop getter'); return 1
    def mmethod(cls): return 1
class A(metaclass=Meta):
    pass
''', {'calls': calls}, ns)
for code in ('A.mprop', 'A.mpro', 'A.mprop.', 'A.'):
    i = jedi.Interpreter(code, [ns])
    for q in ('complete', 'infer', 'goto', 'help'):
        try:
            getattr(i, q)()
        except Exception as e:
            print(code, q, 'raised', type(e).__name__)
names = [c.name for c in jedi.Interpreter('A.m', [ns]).complete()]
print('completions after A.m:', names)
print('user code run in safe mode:', calls or 'none')
sys.exit(1 if calls else 0)
