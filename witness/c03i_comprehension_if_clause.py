"""Names in the `if` clause (and in a nested `for` clause) of a comprehension are resolved in
the scope AROUND the comprehension: goto() finds nothing for the loop variable, get_references
does not connect it with `for i`, and rename() of the loop variable leaves it behind
-> NameError at run time."""
import subprocess
import sys
import jedi

code = '''\
a = 2
loc = [a * i for i in range(4) if i != a]
sq = {k: v for k in range(3) for v in range(k) if v + k}
print(loc, sq)
'''
# line 2: `i` at columns 11 (a * i), 17 (for i), 34 (if i)
# line 3: `k` at 6 (key), 15 (for k), 44 (range(k)), 54 (v + k)


def run(src):
    p = subprocess.run([sys.executable, '-c', src], capture_output=True, text=True)
    return p.returncode, p.stdout, p.stderr.strip().splitlines()[-1:]


script = jedi.Script(code)
bad = []
for line, columns in [(2, [11, 17, 34]), (3, [6, 15, 44, 54])]:
    expected = [(line, c) for c in columns]
    for column in columns:
        got = sorted((d.line, d.column) for d in script.get_references(line, column, scope='file'))
        if got != expected:
            bad.append('get_references(%s, %s) = %s, expected %s' % (line, column, got, expected))
if not script.goto(2, 34):
    bad.append('goto(2, 34) on the `i` of `if i != a` finds nothing')
before = run(code)
new_code = script.rename(2, 17, new_name='zz').get_changed_files()[None].get_new_code()
after = run(new_code)
if after != before:
    bad.append('after rename(2, 17) the program %r fails with %s' % (new_code, after[2]))
if bad:
    print('DEFECT: names in the `if` clause of a comprehension:')
    print('\n'.join('  ' + b for b in bad))
    sys.exit(1)
print('ok')
