#!/bin/sh
# tools/collect_twins.sh <out-root> <dest-name> Cxx...: copies delivered refactoring twins from <out-root>/<Cxx>/<i>/ to
# seeded/<dest-name>/<Cxx>/<i>/ (patch.diff + meta.json only) and says whether each applies to /repo
src=$1; dest=$2; shift 2
for p in "$@"; do
  for i in 1 2 3; do
    s=$src/$p/$i
    [ -f $s/patch.diff ] || continue
    d=/verif/seeded/$dest/$p/$i
    mkdir -p $d
    cp $s/patch.diff $d/patch.diff
    [ -f $s/meta.json ] && cp $s/meta.json $d/meta.json
    git -C /repo apply --check $d/patch.diff 2>/dev/null && echo "$p/$i applies" || echo "$p/$i DOES NOT APPLY"
  done
done
