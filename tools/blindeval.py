#!/venv/bin/python
"""Blind evaluation of seeded breaking changes: every claimed check (quick rules, no self-test) runs on a scratch copy of /repo/jedi
with the patch applied.  CAUGHT = some check exits 1 (a VIOLATION); exit 2 (analysis error, vanished anchor) is reported but is not a
detection.  usage: blindeval.py [-j N] DIR...   Development tool."""
import contextlib, io, json, os, shutil, subprocess, sys, tempfile
from concurrent.futures import ProcessPoolExecutor
VERIF = os.path.dirname(os.path.dirname(os.path.abspath(__file__)))
sys.path.insert(0, VERIF)
from sa.claims import CLAIMS


def one(d):
    d = os.path.abspath(d)
    tmp = tempfile.mkdtemp(prefix='verif-sa-blind-')
    try:
        dst = os.path.join(tmp, 'repo')
        shutil.copytree('/repo/jedi', os.path.join(dst, 'jedi'), ignore=shutil.ignore_patterns('__pycache__'))
        p = subprocess.run(['patch', '-p1', '-s', '-d', dst, '-i', os.path.join(d, 'patch.diff'), '--no-backup-if-mismatch'],
                           stdout=subprocess.PIPE, stderr=subprocess.STDOUT, text=True)
        if p.returncode:
            return d, None
        from sa.main import run_property
        from sa import main as _m
        out = {}
        for prop in sorted(CLAIMS):
            buf = io.StringIO()
            with contextlib.redirect_stdout(buf):
                rc, _ = run_property(prop, 'quick', dst, write=False, selftest=False, share=True)
            if rc:
                lines = [l.strip() for l in buf.getvalue().splitlines() if (l.startswith('  ') and ' — ' in l) or l.startswith('ANALYSIS-ERROR')]
                out[prop] = (rc, lines[:3])
        _m._REPOS.pop(dst, None)
        return d, out
    finally:
        shutil.rmtree(tmp, ignore_errors=True)


def main():
    a = sys.argv[1:]
    j = 4
    if a and a[0] == '-j':
        j = int(a[1]); a = a[2:]
    caught = total = 0
    with ProcessPoolExecutor(j) as ex:
        for d, out in ex.map(one, a):
            rel = os.path.relpath(d, VERIF)
            try:
                prop = json.load(open(os.path.join(d, 'meta.json'))).get('property', '?')
            except Exception:
                prop = '?'
            if out is None:
                print('%s [%s]: PATCH DOES NOT APPLY' % (rel, prop)); continue
            total += 1
            c1 = sorted(p for p, (rc, _) in out.items() if rc == 1)
            c2 = sorted(p for p, (rc, _) in out.items() if rc == 2)
            if c1:
                caught += 1
                print('%s [%s]: CAUGHT by %s%s' % (rel, prop, ','.join(c1), (' (analysis error in %s)' % ','.join(c2)) if c2 else ''))
            else:
                print('%s [%s]: MISSED%s' % (rel, prop, (' (analysis error in %s)' % ','.join(c2)) if c2 else ''))
            for p, (rc, lines) in sorted(out.items()):
                for l in lines[:2]:
                    print('     %s: %s' % (p, l[:300]))
    print('caught %d of %d' % (caught, total))


main()
