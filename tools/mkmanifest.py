#!/venv/bin/python
"""Regenerates /verif/MANIFEST.json from the table below (single source of truth)."""
import json, os, sys
sys.path.insert(0, os.path.dirname(os.path.dirname(os.path.abspath(__file__))))
from sa.claims import CLAIMS, NOT_APPLICABLE

NOTE = ('Decides the named necessary structural conditions of the mechanism on the current source tree, not the behavioural '
        'property for all inputs. Trusted base: Python ast, the /verif/sa engine (own CFG, name resolution, by-name call '
        'over-approximation, canonicalisation against sa/reference_locals.json and sa/reference_summaries.json), the triaged tables frozen in the rule modules; parso is a pinned dependency and is not analysed.')

checks = []
for pid in sorted(CLAIMS):
    c = CLAIMS[pid]
    checks.append({
        'property_id': pid,
        'quick_cmd': './check %s --tier quick' % pid,
        'thorough_cmd': './check %s --tier thorough' % pid,
        'evidence_file': 'evidence/%s.json' % pid,
        'replay_cmd_template': '/venv/bin/python -c "import json,sys,subprocess; d=json.load(open(sys.argv[1])); sys.exit(subprocess.call(d[\'rerun\'].split()))" {path}',
        'engine': 'sa',
        'level_claimed': {'category': 'other', 'text': c['level'], 'design_ref': 'DESIGN.md section 4, %s' % pid},
        'level_note': c.get('note', '') + ' ' + NOTE,
        'technique': c['technique'],
    })
m = {
    'version': 1,
    'setup_cmd': 'true',
    'hooks': {'guard': 'JEDI_VERIF', 'enable': 'none needed: the checks read the sources, nothing in jedi is instrumented',
              'baseline_off_cmd': 'cd /repo && /venv/bin/python -m pytest -ra -q -p no:cacheprovider --timeout=900 --continue-on-collection-errors',
              'source_commits': [], 'add_only': True},
    'engines': [{'name': 'sa', 'path': 'sa/', 'serves_properties': sorted(CLAIMS),
                 'kind_free_text': 'repository-specific static analysis: ast program model, statement CFGs with copied finally blocks, '
                                   'reachability-avoiding queries (MUST/GATE/PAIR) with correlated tests and flag variables, who-may-call over a by-name call graph, '
                                   'table agreement, symbolic per-path summaries of small loop-free functions compared with a committed reference, '
                                   'and a canonicalisation pass (renamed locals/private functions, extracted single-use helpers, new temporaries and '
                                   'module constants are normalised against a committed reference of the pinned tree) so that rules are not '
                                   'sensitive to behaviour-preserving refactorings'}],
    'checks': checks,
    'not_applicable': [{'property_id': k, 'reason': v} for k, v in sorted(NOT_APPLICABLE.items())],
    'notes': 'Static analysis only: no check imports or runs jedi. Exit 0 ok / 1 VIOLATION / 2 ANALYSIS-ERROR (anchor vanished or checker bug). '
             'known_findings.json lists genuine defects recorded rather than repaired; fixed ones are recorded there too and suppress nothing.',
}
with open(os.path.join(os.path.dirname(os.path.dirname(os.path.abspath(__file__))), 'MANIFEST.json'), 'w') as f:
    json.dump(m, f, indent=1)
    f.write('\n')
print('MANIFEST.json: %d checks, %d not applicable' % (len(checks), len(m['not_applicable'])))
