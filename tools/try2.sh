#!/bin/sh
# tools/try2.sh <patch-dir> <Cxx> [more check args]: copy /repo/jedi to a scratch dir, apply the seeded patch there, run one check on it.
d=$(cd "$1" && pwd); shift
t=$(mktemp -d /tmp/verif-try-XXXXXX)
mkdir -p $t/repo; cp -r /repo/jedi $t/repo/jedi
patch -p1 -s -d $t/repo -i "$d/patch.diff" --no-backup-if-mismatch || { rm -rf $t; exit 3; }
/verif/check "$@" --no-write --no-selftest --root $t/repo | grep -v "^KNOWN" | tail -6
rm -rf $t
