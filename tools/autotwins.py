#!/venv/bin/python
"""Automatic silent twins: for every function that a property's rules put an obligation on, insert a no-op
statement (`pass`) at the top of the body, or a docstring, on a scratch copy and require the check to stay at exit 0.
usage: autotwins.py [Cxx...]   Development tool: hunts brittle (body-shape dependent) rules."""
import ast, os, shutil, sys, tempfile
from concurrent.futures import ProcessPoolExecutor
VERIF = os.path.dirname(os.path.dirname(os.path.abspath(__file__)))
sys.path.insert(0, VERIF)

def funcs_of(prop):
    from sa.main import run_property
    code, chk = run_property(prop, 'quick', '/repo', write=False, quiet=True, selftest=False)
    return sorted(chk.analysed_funcs)

def edit(src, qual, how):
    tree = ast.parse(src)
    parts = qual.split('.')
    def find(body, parts):
        for n in body:
            for x in ast.walk(n) if not isinstance(n, (ast.FunctionDef, ast.AsyncFunctionDef, ast.ClassDef)) else [n]:
                if isinstance(x, (ast.FunctionDef, ast.AsyncFunctionDef, ast.ClassDef)) and x.name == parts[0]:
                    if len(parts) == 1:
                        return x
                    r = find(x.body, parts[1:])
                    if r is not None:
                        return r
        return None
    node = find(tree.body, parts)
    if node is None or not isinstance(node, (ast.FunctionDef, ast.AsyncFunctionDef)):
        return None
    first = node.body[0]
    has_doc = isinstance(first, ast.Expr) and isinstance(first.value, ast.Constant) and isinstance(first.value.value, str)
    lines = src.split('\n')
    if how == 'pass':
        target = node.body[1] if has_doc and len(node.body) > 1 else (None if has_doc else first)
        if target is None:
            return None
        ln = target.lineno - 1
        if target.lineno == node.lineno:      # one-line def
            return None
        ind = lines[ln][:len(lines[ln]) - len(lines[ln].lstrip())]
        lines.insert(ln, ind + 'pass')
    elif how == 'ifswap':
        # `if C: A else: B` -> `if not (C): B else: A` for the first if/else (no elif) whose two branches are single-line statements lists
        cand = None
        for x in ast.walk(node):
            if isinstance(x, ast.If) and x.orelse and not (len(x.orelse) == 1 and isinstance(x.orelse[0], ast.If)) \
                    and x.test.lineno == x.test.end_lineno and x.lineno == x.test.lineno:
                inner = False
                for f2 in ast.walk(node):
                    if f2 is not node and isinstance(f2, (ast.FunctionDef, ast.AsyncFunctionDef, ast.Lambda)) and any(y is x for y in ast.walk(f2)):
                        inner = True
                if not inner:
                    cand = x
                    break
        if cand is None:
            return None
        b0, b1 = cand.body[0].lineno - 1, cand.body[-1].end_lineno
        e0, e1 = cand.orelse[0].lineno - 1, cand.orelse[-1].end_lineno
        # the `else:` line sits between b1 and e0 (comments allowed); require exactly one such line containing `else:`
        mid = lines[b1:e0]
        else_idx = [i for i, l in enumerate(mid) if l.strip().startswith('else:')]
        if len(else_idx) != 1 or mid[else_idx[0]].strip() != 'else:':
            return None
        head = lines[cand.lineno - 1]
        ind = head[:len(head) - len(head.lstrip())]
        test_src = head.strip()
        if not (test_src.startswith('if ') and test_src.endswith(':')) or b0 <= cand.lineno - 1 and cand.body[0].lineno == cand.lineno:
            return None
        cond = test_src[3:-1]
        new_head = ind + 'if not (%s):' % cond
        body = lines[b0:b1]
        orelse = lines[e0:e1]
        lines[cand.lineno - 1:e1] = [new_head] + orelse + [ind + 'else:'] + body
    elif how == 'tmpret':
        # `return EXPR` -> `_res = EXPR; return _res` for the LAST return of the function (single-line, own line)
        rets = [x for x in ast.walk(node) if isinstance(x, ast.Return) and x.value is not None and x.lineno == x.end_lineno
                and not isinstance(x.value, (ast.Constant, ast.Name))]
        rets = [r for r in rets if lines[r.lineno - 1].strip().startswith('return ')]
        # only returns that belong to this very function
        own = []
        for r in rets:
            q = r
            ok = True
            for f2 in ast.walk(node):
                if f2 is not node and isinstance(f2, (ast.FunctionDef, ast.AsyncFunctionDef, ast.Lambda)) and any(y is r for y in ast.walk(f2)):
                    ok = False
            if ok:
                own.append(r)
        if not own:
            return None
        r = own[-1]
        ln = r.lineno - 1
        ind = lines[ln][:len(lines[ln]) - len(lines[ln].lstrip())]
        expr = lines[ln].strip()[len('return '):]
        lines[ln] = ind + '_res = ' + expr
        lines.insert(ln + 1, ind + 'return _res')
    else:
        if has_doc or first.lineno == node.lineno:
            return None
        ln = first.lineno - 1
        ind = lines[ln][:len(lines[ln]) - len(lines[ln].lstrip())]
        lines.insert(ln, ind + '"""Inserted docstring."""')
    return '\n'.join(lines)

def run(args):
    prop, mod, qual, how = args
    from sa.main import run_property
    from sa.report import load_known
    tmp = tempfile.mkdtemp(prefix='verif-sa-auto-')
    try:
        dst = os.path.join(tmp, 'repo')
        shutil.copytree('/repo/jedi', os.path.join(dst, 'jedi'), ignore=shutil.ignore_patterns('__pycache__', 'third_party'))
        rel = mod.replace('.', '/')
        path = os.path.join(dst, rel + '.py')
        if not os.path.exists(path):
            path = os.path.join(dst, rel, '__init__.py')
        src = open(path).read()
        new = edit(src, qual, how)
        if new is None:
            return args, 'skip', []
        try:
            compile(new, path, 'exec')
        except SyntaxError:
            return args, 'skip', []
        open(path, 'w').write(new)
        code, chk = run_property(prop, 'quick', dst, write=False, quiet=True, selftest=False)
        known = load_known(prop)
        fired = sorted({(o.rule, o.what[:90]) for o in chk.obs if not o.ok and o.key not in known}) if chk else []
        return args, 'ok' if code == 0 else ('error' if code == 2 else 'FALSE-ALARM'), fired
    finally:
        shutil.rmtree(tmp, ignore_errors=True)

def main():
    from sa.claims import CLAIMS
    props = sys.argv[1:] or sorted(CLAIMS)
    jobs = []
    for p in props:
        for mod, qual in funcs_of(p):
            if qual == '<module>':
                continue
            for how in os.environ.get('HOW', 'pass,doc').split(','):
                jobs.append((p, mod, qual, how))
    print('%d twins' % len(jobs), flush=True)
    bad = 0
    with ProcessPoolExecutor(int(os.environ.get("JOBS", "6"))) as ex:
        for args, verdict, fired in ex.map(run, jobs):
            if verdict not in ('ok', 'skip'):
                bad += 1
                print(verdict, *args, fired[:2], flush=True)
    print('done, %d problem(s)' % bad)

main()
