#!/venv/bin/python
"""Automatic silent twins: for every function that a property's rules put an obligation on, insert a no-op
statement (`pass`) at the top of the body, or a docstring, on a scratch copy and require the check to stay at exit 0.
usage: autotwins.py [Cxx...]   Development tool: hunts brittle (body-shape dependent) rules."""
import ast, os, shutil, sys, tempfile
from concurrent.futures import ProcessPoolExecutor
VERIF = os.path.dirname(os.path.dirname(os.path.abspath(__file__)))
sys.path.insert(0, VERIF)

def funcs_of(prop):
    from sa.main import run_property
    code, chk = run_property(prop, 'quick', '/repo', write=False, quiet=True, selftest=False)
    return sorted(chk.analysed_funcs)

from sa.autotwin import edit

def run(args):
    prop, mod, qual, how = args
    from sa.main import run_property
    from sa.report import load_known
    tmp = tempfile.mkdtemp(prefix='verif-sa-auto-')
    try:
        dst = os.path.join(tmp, 'repo')
        shutil.copytree('/repo/jedi', os.path.join(dst, 'jedi'), ignore=shutil.ignore_patterns('__pycache__', 'third_party'))
        rel = mod.replace('.', '/')
        path = os.path.join(dst, rel + '.py')
        if not os.path.exists(path):
            path = os.path.join(dst, rel, '__init__.py')
        src = open(path).read()
        new = edit(src, qual, how)
        if new is None:
            return args, 'skip', []
        try:
            compile(new, path, 'exec')
        except SyntaxError:
            return args, 'skip', []
        open(path, 'w').write(new)
        code, chk = run_property(prop, 'quick', dst, write=False, quiet=True, selftest=False)
        known = load_known(prop)
        fired = sorted({(o.rule, o.what[:90]) for o in chk.obs if not o.ok and o.key not in known}) if chk else []
        return args, 'ok' if code == 0 else ('error' if code == 2 else 'FALSE-ALARM'), fired
    finally:
        shutil.rmtree(tmp, ignore_errors=True)

def main():
    from sa.claims import CLAIMS
    props = sys.argv[1:] or sorted(CLAIMS)
    jobs = []
    for p in props:
        for mod, qual in funcs_of(p):
            if qual == '<module>':
                continue
            for how in os.environ.get('HOW', 'pass,doc').split(','):
                jobs.append((p, mod, qual, how))
    print('%d twins' % len(jobs), flush=True)
    bad = 0
    with ProcessPoolExecutor(int(os.environ.get("JOBS", "6"))) as ex:
        for args, verdict, fired in ex.map(run, jobs):
            if verdict not in ('ok', 'skip'):
                bad += 1
                print(verdict, *args, fired[:2], flush=True)
    print('done, %d problem(s)' % bad)

main()
