#!/venv/bin/python
"""tools/showcanon.py <patch-dir|-> <module> <qualname>...: print the canonicalised source of functions as the rules see them,
on a scratch copy of /repo/jedi with the patch applied ('-' = unchanged tree).  Development tool."""
import ast, os, shutil, subprocess, sys, tempfile
sys.path.insert(0, os.path.dirname(os.path.dirname(os.path.abspath(__file__))))
from sa.core import Repo
d, mod = sys.argv[1], sys.argv[2]
tmp = tempfile.mkdtemp(prefix='verif-sa-show-')
try:
    dst = os.path.join(tmp, 'repo')
    shutil.copytree('/repo/jedi', os.path.join(dst, 'jedi'), ignore=shutil.ignore_patterns('__pycache__'))
    if d != '-':
        subprocess.check_call(['patch', '-p1', '-s', '-d', dst, '-i', os.path.join(os.path.abspath(d), 'patch.diff'), '--no-backup-if-mismatch'])
    repo = Repo(dst)
    for q in sys.argv[3:]:
        try:
            f = repo.find(mod, q)
        except Exception as e:
            print('## %s: %s' % (q, e)); continue
        print('## %s' % q)
        print(ast.unparse(f))
finally:
    shutil.rmtree(tmp, ignore_errors=True)
