#!/venv/bin/python
"""Regenerates sa/reference_summaries.json from a tree (default /repo).  Run only when the pinned tree is the reference."""
import json, os, sys
sys.path.insert(0, os.path.dirname(os.path.dirname(os.path.abspath(__file__))))
from sa.core import Repo
from sa.summaries import SUMMARISED, REF, compute
repo = Repo(sys.argv[1] if len(sys.argv) > 1 else '/repo')
out = {}
for (mod, qual) in sorted(SUMMARISED):
    f, s = compute(repo, mod, qual)
    if s is None:
        raise SystemExit('%s:%s cannot be summarised' % (mod, qual))
    out['%s:%s' % (mod, qual)] = s
json.dump(out, open(REF, 'w'), indent=1)
print('%d summaries' % len(out))
