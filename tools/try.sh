#!/bin/sh
# tools/try.sh <patch-dir> <Cxx> [more check args]: apply a seeded patch to /repo, run one check, revert.
d=$(cd "$1" && pwd); shift
git -C /repo apply "$d/patch.diff" || exit 3
/verif/check "$@" --no-write --no-selftest | grep -v "^KNOWN" | tail -6
git -C /repo checkout -- .
git -C /repo status --short | head -3
