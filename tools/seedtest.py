#!/venv/bin/python
"""Apply each seeded patch to /repo, run the quick checks (no evidence written), undo the patch.
usage: seedtest.py DIR...   (each DIR holds patch.diff [+ meta.json]); prints which checks fire.
Development tool, not a registered check."""
import json, os, subprocess, sys
sys.path.insert(0, os.path.dirname(os.path.dirname(os.path.abspath(__file__))))
from sa.claims import CLAIMS

def sh(*a, **k):
    return subprocess.run(a, stdout=subprocess.PIPE, stderr=subprocess.STDOUT, text=True, **k)

def main():
    dirs = sys.argv[1:]
    if sh('git', '-C', '/repo', 'status', '--porcelain').stdout.strip():
        print('/repo is dirty, refusing'); return 2
    for d in dirs:
        patch = os.path.join(d, 'patch.diff')
        if not os.path.exists(patch):
            continue
        meta = {}
        try:
            meta = json.load(open(os.path.join(d, 'meta.json')))
        except Exception:
            pass
        r = sh('git', '-C', '/repo', 'apply', patch)
        if r.returncode != 0:
            r = sh('patch', '-p1', '-d', '/repo', '-i', os.path.abspath(patch), '--no-backup-if-mismatch')
            if r.returncode != 0:
                print('%s: PATCH DOES NOT APPLY: %s' % (d, r.stdout.strip()[:200]))
                sh('git', '-C', '/repo', 'checkout', '--', '.')
                continue
        try:
            fired, errs = [], []
            for p in sorted(CLAIMS):
                c = sh('/verif/check', p, '--no-write', '--tier', 'quick')
                if c.returncode == 1:
                    lines = [l.strip() for l in c.stdout.splitlines() if l.startswith('  ') and ' — ' in l]
                    fired.append((p, lines))
                elif c.returncode != 0:
                    errs.append((p, c.stdout.strip().splitlines()[-1][:200] if c.stdout.strip() else ''))
            prop = meta.get('property', '?')
            print('%s [%s]: %s' % (d, prop, 'CAUGHT by ' + ','.join(p for p, _ in fired) if fired else 'MISSED'))
            for p, lines in fired:
                for l in lines[:3]:
                    print('     %s: %s' % (p, l[:230]))
            for p, e in errs:
                print('     %s ANALYSIS-ERROR %s' % (p, e))
        finally:
            sh('git', '-C', '/repo', 'checkout', '--', '.')
            sh('git', '-C', '/repo', 'clean', '-fdq', 'jedi')
    return 0

sys.exit(main())
