#!/venv/bin/python
"""Regenerates the seeded-changes table of DESIGN.md (between the SEEDED_TABLE markers) from seeded/index.json."""
import json, os, re
VERIF = os.path.dirname(os.path.dirname(os.path.abspath(__file__)))
idx = json.load(open(os.path.join(VERIF, 'seeded', 'index.json')))
rows = ['| id | wave | what the change does | needs | caught by (rules) | blind result (waves 3, 4) |', '|---|---|---|---|---|---|']
for e in idx:
    meta = json.load(open(os.path.join(VERIF, 'seeded', e['id'], 'meta.json')))
    summ = re.sub(r'\s+', ' ', (meta.get('summary') or '')).strip()
    summ = summ[:150] + ('…' if len(summ) > 150 else '')
    needs = re.sub(r'\s+', ' ', (meta.get('needs') or '')).strip()
    needs = needs[:90] + ('…' if len(needs) > 90 else '')
    caught = '; '.join('%s (%s)' % (p, ', '.join(r)) for p, r in sorted(e['rules'].items()) if r != ['ANALYSIS-ERROR']) or '**missed**'
    rows.append('| %s | %s | %s | %s | %s | %s |' % (e['id'], e.get('wave', ''), summ.replace('|', '/'), needs.replace('|', '/'), caught, (e.get('blind') or '').replace('|', '/')))
n = len(idx)
c = sum(1 for e in idx if e['caught_by'])
own = sum(1 for e in idx if e['property'] in e['caught_by'])
rows.append('')
rows.append('%d confirmed changes; %d caught by at least one check on the current rules, %d of them by the check of their own property.' % (n, c, own))
p = os.path.join(VERIF, 'DESIGN.md')
s = open(p).read()
a, b = s.index('<!-- SEEDED_TABLE_BEGIN -->'), s.index('<!-- SEEDED_TABLE_END -->')
s = s[:a] + '<!-- SEEDED_TABLE_BEGIN -->\n' + '\n'.join(rows) + '\n' + s[b:]
open(p, 'w').write(s)
print('%d rows; caught %d; own %d' % (n, c, own))
