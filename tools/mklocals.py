#!/venv/bin/python
"""Regenerates sa/reference_locals.json (the reference table of function locals used for rename
normalisation) from a tree (default /repo).  Run only when the pinned tree is the reference."""
import ast, json, os, sys
sys.path.insert(0, os.path.dirname(os.path.dirname(os.path.abspath(__file__))))
from sa.locals_ref import build_reference, REF_PATH
from sa.canon import canonicalise_comparisons
root = sys.argv[1] if len(sys.argv) > 1 else '/repo'
mods = {}
for dp, dn, fn in os.walk(os.path.join(root, 'jedi')):
    dn[:] = [d for d in dn if d not in ('third_party', '__pycache__')]
    for f in fn:
        if f.endswith('.py'):
            p = os.path.join(dp, f)
            parts = os.path.relpath(p, root)[:-3].split(os.sep)
            if parts[-1] == '__init__':
                parts = parts[:-1]
            mods['.'.join(parts)] = canonicalise_comparisons(ast.parse(open(p, encoding='utf-8').read()))
ref = build_reference(mods)
json.dump(ref, open(REF_PATH, 'w'), indent=0)     # insertion order = order of first binding: used to pair equal fingerprints
print('%d modules, %d functions with locals, %d functions in all' % (len(ref) - 5, sum(len(v) for k, v in ref.items() if not k.startswith('__')), sum(len(v) for v in ref['__functions__'].values())))
