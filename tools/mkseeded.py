#!/venv/bin/python
"""Builds /verif/seeded/<id>/ (patch.diff, demo.py, meta.json) and /verif/seeded/index.json from the confirmed
entries of /verif/seeded/_incoming/Cxx/<i>/, recording which checks fire on each change (every claimed check is run
on a scratch copy of /repo with the patch applied).  Development tool."""
import json, os, shutil, subprocess, sys, tempfile
from concurrent.futures import ProcessPoolExecutor
VERIF = os.path.dirname(os.path.dirname(os.path.abspath(__file__)))
sys.path.insert(0, VERIF)
from sa.claims import CLAIMS

def fired_by(args):
    d, = args
    tmp = tempfile.mkdtemp(prefix='verif-sa-seed-')
    try:
        dst = os.path.join(tmp, 'repo')
        shutil.copytree('/repo/jedi', os.path.join(dst, 'jedi'), ignore=shutil.ignore_patterns('__pycache__'))
        p = subprocess.run(['patch', '-p1', '-s', '-d', dst, '-i', os.path.join(d, 'patch.diff'), '--no-backup-if-mismatch'], stdout=subprocess.PIPE, stderr=subprocess.STDOUT, text=True)
        if p.returncode:
            return d, None
        out = {}
        import contextlib, io
        from sa.main import run_property
        from sa import main as _m
        for prop in sorted(CLAIMS):
            buf = io.StringIO()
            with contextlib.redirect_stdout(buf):
                rc, _ = run_property(prop, 'quick', dst, write=False, selftest=False, share=True)
            if rc == 1:
                rules = sorted({l.split(' — ')[1].strip() for l in buf.getvalue().splitlines() if l.startswith('  ') and ' — ' in l})
                out[prop] = rules
            elif rc == 2:
                out[prop] = ['ANALYSIS-ERROR']
        _m._REPOS.pop(dst, None)
        return d, out
    finally:
        shutil.rmtree(tmp, ignore_errors=True)

def main():
    dirs = []
    ids = {}
    blind = {}
    for bl, pre in ((os.path.join(VERIF, 'seeded', 'wave3_blind_evaluation.log'), 'seeded/_incoming3/'),
                    (os.path.join(VERIF, 'seeded', 'wave4_blind_evaluation.log'), 'seeded/_incoming4/'),
                    (os.path.join(VERIF, 'seeded', 'wave8_blind_evaluation.log'), 'seeded/_incoming8/'),
                    (os.path.join(VERIF, 'seeded', 'wave9_blind_evaluation.log'), 'seeded/_incoming9/')):
        if os.path.exists(bl):
            for line in open(bl):
                if line.startswith(pre) and ':' in line:
                    k, rest = line.split(':', 1)
                    k = k.split(' ')[0]
                    rest = rest.strip()
                    blind[os.path.join(VERIF, k)] = rest
    # wave 1+2: ids Cxx-1..3; wave 3: ids Cxx-4, Cxx-5; wave 4: ids Cxx-6, Cxx-7; wave 8: ids Cxx-8, Cxx-9
    for sub, offset, wave in (('_incoming', 0, '1-2'), ('_incoming3', 3, '3'), ('_incoming4', 5, '4'), ('_incoming8', 7, '8'), ('_incoming9', 9, '9')):
        inc = os.path.join(VERIF, 'seeded', sub)
        if not os.path.isdir(inc):
            continue
        for prop in sorted(os.listdir(inc)):
            pd = os.path.join(inc, prop)
            if os.path.isdir(pd):
                for i in sorted(os.listdir(pd)):
                    d = os.path.join(pd, i)
                    if os.path.exists(os.path.join(d, 'patch.diff')):
                        dirs.append(d)
                        ids[d] = ('%s-%d' % (prop, int(i) + offset), wave)
    with ProcessPoolExecutor(8) as ex:
        fired = dict(ex.map(fired_by, [(d,) for d in dirs]))
    index = []
    for d in dirs:
        prop, i = d.split(os.sep)[-2:]
        sid, wave = ids[d]
        conf = json.load(open(os.path.join(d, 'confirm.json'))) if os.path.exists(os.path.join(d, 'confirm.json')) else {}
        meta = json.load(open(os.path.join(d, 'meta.json')))
        out = os.path.join(VERIF, 'seeded', sid)
        os.makedirs(out, exist_ok=True)
        shutil.copy(os.path.join(d, 'patch.diff'), out)
        shutil.copy(os.path.join(d, 'demo.py'), out)
        for extra in ('patch.orig.diff', 'patch.orig2.diff'):
            if os.path.exists(os.path.join(d, extra)):
                shutil.copy(os.path.join(d, extra), out)
        f = fired.get(d)
        caught = sorted(p for p, r in (f or {}).items() if r != ['ANALYSIS-ERROR'])
        m = {
            'id': sid, 'property': prop, 'summary': meta.get('summary'), 'needs': meta.get('needs'), 'files': meta.get('files'),
            'author': 'independent sub-agent given only the property text and a scratch worktree',
            'agent_ran': meta.get('ran') or meta.get('agent_ran'),
            'confirmed_here': {
                'demo_exit_on_unpatched_tree': conf.get('demo_clean_exit'), 'demo_exit_with_patch': conf.get('demo_patched_exit'),
                'baseline_with_patch': 'missing=0 (264/264)' if conf.get('baseline_exit') == 0 else conf.get('baseline_tail'),
                'commands': ['rsync /repo -> scratch; PYTHONPATH=<scratch> /venv/bin/python demo.py (exit %s)' % conf.get('demo_clean_exit'),
                             'patch -p1 < patch.diff; PYTHONPATH=<scratch> /venv/bin/python demo.py (exit %s)' % conf.get('demo_patched_exit'),
                             'tools/baseline.py <scratch> -n 4 (exit %s)' % conf.get('baseline_exit')],
                'confirmed': bool(conf.get('confirmed')),
            },
            'checks_that_fire': f,
            'caught_by': caught,
            'wave': wave,
        }
        if d in blind:
            m['blind_evaluation_before_strengthening'] = blind[d]
        json.dump(m, open(os.path.join(out, 'meta.json'), 'w'), indent=1)
        index.append({'id': sid, 'property': prop, 'confirmed': bool(conf.get('confirmed')), 'caught_by': caught,
                      'rules': {p: r for p, r in (f or {}).items()}, 'wave': wave, 'blind': blind.get(d)})
    json.dump(index, open(os.path.join(VERIF, 'seeded', 'index.json'), 'w'), indent=1)
    for e in index:
        print('%-8s %-5s confirmed=%-5s caught_by=%s' % (e['id'], e['property'], e['confirmed'], ','.join(e['caught_by']) or 'MISSED'))

main()
