#!/bin/sh
# run every claimed check (quick) and print only the summary lines; non-zero if any check does not exit 0
cd "$(dirname "$0")/.." || exit 2
rc=0
for p in C01 C03 C04 C05 C06 C07 C08 C09 C10 C11 C12 C13 C14 C15 C16 C17 C18 C19 C20; do
  ./check $p "$@" > /tmp/allchecks.$$ 2>&1; c=$?
  tail -1 /tmp/allchecks.$$
  [ $c -ne 0 ] && { rc=1; grep -E "^VIOLATION|^ANALYSIS|^  " /tmp/allchecks.$$ | head -6; }
done
rm -f /tmp/allchecks.$$
exit $rc
