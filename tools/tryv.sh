#!/bin/sh
# tools/tryv.sh <patch-dir> <Cxx> [check args]: like try2.sh but prints every failed obligation with its detail
d=$(cd "$1" && pwd); shift
t=$(mktemp -d /tmp/verif-try-XXXXXX)
mkdir -p $t/repo; cp -r /repo/jedi $t/repo/jedi
patch -p1 -s -d $t/repo -i "$d/patch.diff" --no-backup-if-mismatch || { rm -rf $t; exit 3; }
/verif/check "$@" --no-write --no-selftest -v --root $t/repo | grep -A1 "BAD\|ANALYSIS-ERROR\|Traceback" | cut -c1-1200
rm -rf $t
