"""Helper: run test/refactor fixtures with the InterpreterEnvironment. usage: run_refactor_cases.py ROOT"""
import sys, os
root = sys.argv[1]
sys.path.insert(0, root)
os.chdir(root)
import jedi
from jedi.api.environment import InterpreterEnvironment
from test import refactor
from test.helpers import test_dir
env = InterpreterEnvironment()
fails = 0; n = 0
for case in refactor.collect_dir_tests(os.path.join(test_dir, 'refactor'), {}):
    n += 1
    desired = case.get_desired_result()
    try:
        if case.type == 'error':
            try:
                case.refactor(env)
            except jedi.RefactoringError as e:
                got = e.args[0] + '\n'
            else:
                got = '<no error>'
            ok = got.strip() == desired.strip()
        elif case.type == 'text':
            got = ''.join(f.get_new_code() for f in case.refactor(env).get_changed_files().values())
            ok = got == desired
        else:
            got = case.refactor(env).get_diff()
            ok = got == desired
    except Exception as e:
        ok = False; got = repr(e)
    if not ok:
        fails += 1
        print('FAIL', case, '\n--- got\n', got, '\n--- want\n', desired)
print('cases=%d fails=%d' % (n, fails))
