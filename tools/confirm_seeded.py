#!/venv/bin/python
"""Confirm seeded changes: for each DIR (patch.diff, demo.py, meta.json) make a scratch copy of /repo under
/tmp/seedconfirm-<pid>/, check that demo.py exits 0 on the clean copy and non-zero on the patched copy and that the
pinned baseline still passes on the patched copy.  Writes DIR/confirm.json.  Development tool (not a registered check).
usage: confirm_seeded.py [-j N] DIR..."""
import json, os, shutil, subprocess, sys, tempfile
from concurrent.futures import ThreadPoolExecutor

def sh(cmd, **k):
    return subprocess.run(cmd, stdout=subprocess.PIPE, stderr=subprocess.STDOUT, text=True, **k)

def one(d):
    d = os.path.abspath(d)
    out = {'dir': d}
    tmp = tempfile.mkdtemp(prefix='seedconfirm-')
    try:
        root = os.path.join(tmp, 'repo')
        sh(['rsync', '-a', '--exclude', '.git', '--exclude', '__pycache__', '/repo/', root + '/'])
        env = dict(os.environ, PYTHONPATH=root)
        r = sh(['/venv/bin/python', os.path.join(d, 'demo.py')], env=env, cwd=tmp, timeout=600)
        out['demo_clean_exit'] = r.returncode
        out['demo_clean_tail'] = r.stdout.strip().splitlines()[-3:]
        p = sh(['patch', '-p1', '-d', root, '-i', os.path.join(d, 'patch.diff'), '--no-backup-if-mismatch'])
        out['patch_applies'] = p.returncode == 0
        if p.returncode != 0:
            out['patch_output'] = p.stdout[-400:]
            return out
        r = sh(['/venv/bin/python', os.path.join(d, 'demo.py')], env=env, cwd=tmp, timeout=600)
        out['demo_patched_exit'] = r.returncode
        out['demo_patched_tail'] = r.stdout.strip().splitlines()[-3:]
        b = sh(['/verif/tools/baseline.py', root, '-n', '4'], timeout=1800)
        out['baseline_exit'] = b.returncode
        out['baseline_tail'] = b.stdout.strip().splitlines()[-2:]
        out['confirmed'] = out['demo_clean_exit'] == 0 and out['demo_patched_exit'] != 0 and b.returncode == 0
    except Exception as e:
        out['error'] = repr(e)
    finally:
        shutil.rmtree(tmp, ignore_errors=True)
        with open(os.path.join(d, 'confirm.json'), 'w') as f:
            json.dump(out, f, indent=1)
    return out

def main():
    a = sys.argv[1:]
    j = 3
    if a and a[0] == '-j':
        j = int(a[1]); a = a[2:]
    with ThreadPoolExecutor(j) as ex:
        for o in ex.map(one, a):
            print('%s: %s (clean=%s patched=%s baseline=%s)' % (o['dir'], 'CONFIRMED' if o.get('confirmed') else 'NOT CONFIRMED',
                  o.get('demo_clean_exit'), o.get('demo_patched_exit'), o.get('baseline_exit')), flush=True)

main()
