#!/venv/bin/python
"""Evaluates behaviour-preserving patches (independent refactorings) against all claimed checks: every check must stay at exit 0 on a
scratch copy of /repo/jedi with the patch applied.  usage: twintest.py [-j N] DIR...   (DIR holds patch.diff).  Development tool."""
import json, os, shutil, subprocess, sys, tempfile
from concurrent.futures import ProcessPoolExecutor
VERIF = os.path.dirname(os.path.dirname(os.path.abspath(__file__)))
sys.path.insert(0, VERIF)
from sa.claims import CLAIMS


def one(d):
    d = os.path.abspath(d)
    tmp = tempfile.mkdtemp(prefix='verif-sa-twin-')
    try:
        dst = os.path.join(tmp, 'repo')
        shutil.copytree('/repo/jedi', os.path.join(dst, 'jedi'), ignore=shutil.ignore_patterns('__pycache__'))
        p = subprocess.run(['patch', '-p1', '-s', '-d', dst, '-i', os.path.join(d, 'patch.diff'), '--no-backup-if-mismatch'],
                           stdout=subprocess.PIPE, stderr=subprocess.STDOUT, text=True)
        if p.returncode:
            return d, None
        out = {}
        import contextlib, io
        from sa.main import run_property
        for prop in sorted(CLAIMS):
            buf = io.StringIO()
            with contextlib.redirect_stdout(buf):
                rc, _ = run_property(prop, 'quick', dst, write=False, selftest=False, share=True)
            if rc:
                lines = [l.strip() for l in buf.getvalue().splitlines() if (l.startswith('  ') and ' — ' in l) or l.startswith('ANALYSIS-ERROR')]
                out[prop] = (rc, lines[:4])
        from sa import main as _m
        _m._REPOS.pop(dst, None)
        return d, out
    finally:
        shutil.rmtree(tmp, ignore_errors=True)


def main():
    a = sys.argv[1:]
    j = 4
    if a and a[0] == '-j':
        j = int(a[1]); a = a[2:]
    bad = 0
    with ProcessPoolExecutor(j) as ex:
        for d, out in ex.map(one, a):
            if out is None:
                print('%s: PATCH DOES NOT APPLY' % d)
            elif not out:
                print('%s: silent' % d)
            else:
                bad += 1
                print('%s: ALARM %s' % (d, ', '.join('%s(exit %d)' % (p, rc) for p, (rc, _) in sorted(out.items()))))
                for p, (rc, lines) in sorted(out.items()):
                    for l in lines:
                        print('      %s' % l[:260])
    print('done, %d patch(es) raised an alarm' % bad)


main()
