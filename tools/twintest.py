#!/venv/bin/python
"""Evaluates behaviour-preserving patches (independent refactorings) against all claimed checks: every check must stay at exit 0 on a
scratch copy of /repo/jedi with the patch applied.  usage: twintest.py [-j N] DIR...   (DIR holds patch.diff).  Development tool."""
import json, os, shutil, subprocess, sys, tempfile
from concurrent.futures import ProcessPoolExecutor
VERIF = os.path.dirname(os.path.dirname(os.path.abspath(__file__)))
sys.path.insert(0, VERIF)
from sa.claims import CLAIMS


def one(d):
    d = os.path.abspath(d)
    tmp = tempfile.mkdtemp(prefix='verif-sa-twin-')
    try:
        dst = os.path.join(tmp, 'repo')
        shutil.copytree('/repo/jedi', os.path.join(dst, 'jedi'), ignore=shutil.ignore_patterns('__pycache__'))
        p = subprocess.run(['patch', '-p1', '-s', '-d', dst, '-i', os.path.join(d, 'patch.diff'), '--no-backup-if-mismatch'],
                           stdout=subprocess.PIPE, stderr=subprocess.STDOUT, text=True)
        if p.returncode:
            return d, None
        out = {}
        for prop in sorted(CLAIMS):
            c = subprocess.run([os.path.join(VERIF, 'check'), prop, '--no-write', '--no-selftest', '--root', dst], stdout=subprocess.PIPE, stderr=subprocess.STDOUT, text=True)
            if c.returncode:
                lines = [l.strip() for l in c.stdout.splitlines() if (l.startswith('  ') and ' — ' in l) or l.startswith('ANALYSIS-ERROR')]
                out[prop] = (c.returncode, lines[:4])
        return d, out
    finally:
        shutil.rmtree(tmp, ignore_errors=True)


def main():
    a = sys.argv[1:]
    j = 4
    if a and a[0] == '-j':
        j = int(a[1]); a = a[2:]
    bad = 0
    with ProcessPoolExecutor(j) as ex:
        for d, out in ex.map(one, a):
            if out is None:
                print('%s: PATCH DOES NOT APPLY' % d)
            elif not out:
                print('%s: silent' % d)
            else:
                bad += 1
                print('%s: ALARM %s' % (d, ', '.join('%s(exit %d)' % (p, rc) for p, (rc, _) in sorted(out.items()))))
                for p, (rc, lines) in sorted(out.items()):
                    for l in lines:
                        print('      %s' % l[:260])
    print('done, %d patch(es) raised an alarm' % bad)


main()
