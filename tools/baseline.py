#!/venv/bin/python
"""Run the pinned baseline suite in ROOT (default /repo) and compare the set of
passing tests with BASELINE.json's stable_pass.  Not a check: a development tool used
to confirm that fix: commits and seeded changes still pass the pinned suite.
usage: baseline.py [ROOT] [-n JOBS]"""
import json, os, subprocess, sys, tempfile
import xml.etree.ElementTree as ET

def main():
    root = '/repo'
    jobs = None
    args = sys.argv[1:]
    while args:
        a = args.pop(0)
        if a == '-n':
            jobs = args.pop(0)
        else:
            root = a
    base = json.load(open('/root/.vp/BASELINE.json'))
    want = set(base['stable_pass'])
    fd, xml = tempfile.mkstemp(suffix='.xml', prefix='jedi-baseline-')
    os.close(fd)
    cmd = ['/venv/bin/python', '-m', 'pytest', '-ra', '-q', '-p', 'no:cacheprovider',
           '--timeout=900', '--continue-on-collection-errors', '--junitxml=' + xml]
    if jobs:
        cmd += ['-n', jobs]
    env = dict(os.environ)
    env.pop('JEDI_VERIF', None)
    env.setdefault('PYENV_VERSION', '3.11.7:3.13.0')    # this shell's pyenv global lacks 3.13 (test_versions[3.13] of the pinned list needs it)
    p = subprocess.run(cmd, cwd=root, env=env, stdout=subprocess.PIPE, stderr=subprocess.STDOUT, text=True)
    passed = set()
    try:
        for tc in ET.parse(xml).getroot().iter('testcase'):
            if not any(c.tag in ('failure', 'error', 'skipped') for c in tc):
                passed.add('%s::%s' % (tc.get('classname'), tc.get('name')))
    finally:
        os.unlink(xml)
    missing = sorted(want - passed)
    print(p.stdout.strip().splitlines()[-1])
    print('baseline stable_pass=%d passed_now=%d missing=%d' % (len(want), len(passed), len(missing)))
    for m in missing:
        print('MISSING', m)
    sys.exit(1 if missing else 0)

main()
