#!/bin/sh
# copies delivered refactoring twins of wave 6 from /tmp/wt7-out/<Cxx>/<i>/ to seeded/_twins6/<Cxx>/<i>/ (patch.diff + meta.json only)
for p in "$@"; do
  for i in 1 2 3; do
    s=/tmp/wt7-out/$p/$i
    [ -f $s/patch.diff ] || continue
    d=/verif/seeded/_twins6/$p/$i
    mkdir -p $d
    cp $s/patch.diff $d/patch.diff
    [ -f $s/meta.json ] && cp $s/meta.json $d/meta.json
    git -C /repo apply --check $d/patch.diff 2>/dev/null && echo "$p/$i applies" || echo "$p/$i DOES NOT APPLY"
  done
done
